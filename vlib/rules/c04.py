"""C04 — a generated field is optional iff Option<T> or bare serde(default).

Decided: (O1) both RustField construction sites take has_default from the bare `default` path under `serde` on the
field's own attributes, and every attribute look-up scans all attributes; (O2) for every backend the text skeleton
of each field line, tabulated over (is_optional, has_default, is_double_optional) by finite evaluation of the
guards in the source, carries the target idiom's optional marker exactly when opt ∨ dflt, not doubled, with the
translated type placed unmodified; (O3) sibling sites (Swift property / init parameter, Kotlin public / private)
agree."""
import itertools
import re

from .. import core, emit, guards, parser_rules as pr, vt

OPT = 'RustField.ty.is_optional()'
DFLT = 'RustField.has_default'
DBL = 'RustField.ty.is_double_optional()'

FIELD_PRINTERS = {
    'typescript': ['write_field'],
    'kotlin': ['write_element'],
    'swift': ['write_struct'],
    'scala': ['write_element'],
    'go': ['write_field'],
    'python': ['write_field'],
}


def option_wrapper(ctx, T, be):
    """How format_special_type renders Option<X>, as a function text(X) -> [texts], read from its Option arm."""
    struct, file = emit.BACKENDS[be]
    f = ctx.fn(f'{struct}::format_special_type', file=file)
    from .. import special
    vals = special.per_variant(ctx, f, 'SpecialRustType').get('Option', [])
    if not vals:
        raise core.Incomplete(f'{be}: result of format_special_type for Option not found')
    asg = {f'{struct}.no_pointer_slice': False}
    R = guards.Renderer(T, asg, type_hook=lambda v: ['\x00'])
    outs = {o for v in vals for o in R.render(v)}
    outs = {o for o in outs if '⟨get:' not in o and '⟨Err' not in o}
    pats = []
    for o in outs:
        if o.count('\x00') != 1:
            raise core.Incomplete(f'{be}: Option arm does not place the inner type exactly once: {o!r}')
        pats.append(o)
    return sorted(pats)


def run(ctx, rep):
    rep.explanation = ('Optionality decided by finite tabulation of the source guards: for each backend the value tree of every field-line template is '
                       'rendered under all feasible assignments of (Option, serde(default), Option<Option>) — evaluating only the boolean expressions '
                       'that appear in the source, with format_type\'s own Option rendering read from the backend\'s Option arm — and the resulting '
                       'skeleton is compared with the target idiom table of the property. Parser side: has_default provenance and all-attribute scanning.')
    rep.not_decided = 'that the idiom table itself is the right idiom for each target (frozen from the property text); newtype payloads other than TypeScript inherit the marker through format_type (C05).'
    rep.trusted = ['syn', 'astq evaluator', 'optional-idiom table from the property statement']
    T = emit.Types(ctx.astq)
    # ---- O1 parser
    rep.section(pr.all_attrs_rule, ctx, rep, 'O1', ('serde_default',), 2, keys=('default',))
    sites = pr.field_sites(ctx)
    for f, st in sites:
        hv = vt.strip(st['v']['fields'].get('has_default'))
        key = f"{f['name']}:has_default"
        site = {'file': f['file'], 'line': st['line']}
        ok = isinstance(hv, dict) and hv.get('k') == 'call' and hv.get('f') == 'serde_default' and len(hv.get('args', [])) == 1
        if ok:
            a = hv['args'][0]
            c = vt.strip(a)
            # the field's own attrs: same element as the one providing `ty`
            tyv = st['v']['fields'].get('ty')
            ok = (isinstance(c, dict) and c.get('path', [])[-1:] == ['attrs'] and c.get('k') == 'atom') or 'attrs' in vt.show(a)
            idv = vt.strip(st['v']['fields'].get('id'))
            same = False
            if isinstance(idv, dict) and idv.get('k') == 'call' and idv.get('args'):
                same = vt.show(vt.strip(idv['args'][1])) == vt.show(vt.strip(a))
            ok = ok and same
        rep.check(ok, 'O1', key, 'has_default = serde_default(<this field>.attrs)', f"{f['name']}: RustField.has_default is not serde_default of the field's own attributes: {vt.show(st['v']['fields'].get('has_default'))[:100]}", site)
    closed, open_ = pr.lookup_closed(ctx, 'serde_default')
    sd = ctx.fn('serde_default', file='parser.rs')
    rep.check(closed == {('SERDE', 'default', 'Path')} and not open_, 'O1', 'serde_default:bare-path-under-serde', 'looks for the bare path `default` inside #[serde(..)]', f'serde_default looks for {sorted(closed)} {sorted(map(str, open_))} — expected the bare path `default` of #[serde(..)] only (`default = "path"` is a different attribute and out of the property)', {'file': sd['file'], 'line': sd['line']})
    # ---- O2/O3/O4 printers
    n_eval = 0
    for be, fnames in FIELD_PRINTERS.items():
        struct, file = emit.BACKENDS[be]
        wraps = option_wrapper(ctx, T, be)
        fns = [g for g in ctx.astq['functions'] if g['file'].endswith(file)]
        inline = {g['name']: g for g in fns if g.get('nested_in')}
        lines_seen = 0
        for fname in fnames:
            f = ctx.fnx(f'{struct}::{fname}', file=file)
            for s in f['sites']:
                has_field_id = any(c.startswith('RustField.id') for c in emit.canons_in_deep(T, s['fmt']))
                has_type = any(c.get('f') == 'format_type' for c in vt.calls_in(s['fmt']))
                if not (has_field_id and has_type):
                    continue
                lines_seen += 1
                role = re.sub(r'[^A-Za-z(]+', ' ', vt.fmt_text(s['fmt'])).strip()[:24] or 'field-line'
                site = {'file': f['file'], 'line': s['line']}
                for opt, dflt, dbl in [(0, 0, 0), (0, 1, 0), (1, 0, 0), (1, 1, 0), (1, 0, 1), (1, 1, 1)]:
                    asg = {OPT: bool(opt), DFLT: bool(dflt), DBL: bool(dbl), f'{struct}.no_pointer_slice': False}
                    for w in wraps:
                        def hook(v, w=w, opt=opt, dbl=dbl):
                            t = 'T'
                            if opt:
                                t = w.replace('\x00', t)
                            if dbl:
                                t = w.replace('\x00', t)
                            return [t]
                        R = guards.Renderer(T, asg, type_hook=hook, inline=dict(emit.object_helpers(T, s['fmt']), **inline))
                        texts = R.render(s['fmt'])
                        n_eval += len(texts)
                        optional = bool(opt or dflt)
                        key = f"{be}:{fname}:{role}:opt={opt},default={dflt},double={dbl}"
                        problems = set()
                        for tx in texts:
                            if 'type_override' in tx:
                                continue  # user-written override text: only presence rules apply, checked on the T alternative
                            p = judge(be, tx, optional, bool(dbl), bool(opt))
                            if p:
                                problems.add(p + f" — skeleton `{tx.strip()[:120]}`")
                        if problems:
                            rep.fail('O2', key, f"{be} {fname} ({'Option' if opt else 'T'}{', serde(default)' if dflt else ''}{', Option<Option>' if dbl else ''}): " + '; '.join(sorted(problems))[:420], site)
                        else:
                            rep.ok('O2', key, texts[0].strip()[:100] if texts else '', site)
        need = 2 if be == 'swift' else 1
        rep.floor('O2', f'{be}: field-line templates', lines_seen, need)
    # TypeScript newtype payload
    rep.section(ts_variant, ctx, rep, T)
    rep.extra['evaluations'] = n_eval


def count_marker(tx, pat):
    return len(re.findall(pat, tx))


def judge(be, tx, optional, dbl, opt):
    """Compare one rendered skeleton with the optional idiom of the backend. Returns a problem string or None."""
    for _ in range(4):
        tx = re.sub(r'⟨(?:acronyms_to_uppercase|swift_keyword_aware_rename):([^⟨⟩]*)⟩', r'\1', tx)
    tcount = len(re.findall(r'(?<![A-Za-z⟨])T(?![A-Za-z⟩])', tx))
    if tcount != 1:
        return f'translated type placed {tcount} times (expected once, unmodified)'
    if be == 'typescript':
        q = bool(re.search(r'⟩\?: ', tx))
        if q != optional:
            return f"`?` after the key is {'present' if q else 'absent'} but the field is {'optional' if optional else 'required'}"
        n = ' | null' in tx
        if n != dbl:
            return f"` | null` is {'present' if n else 'absent'} for {'Option<Option<T>>' if dbl else 'a non-double-optional type'}"
        return None
    if be == 'kotlin':
        q = tx.count('?')
        eq = ' = null' in tx
        if optional:
            if q < 1 or not eq:
                return f"expected nullable type with `= null`, found {q} `?` and {'a' if eq else 'no'} default"
            if q > 1 and not dbl:
                return 'nullable marker doubled (`??`)'
        elif q or eq:
            return 'required field rendered nullable / defaulted'
        return None
    if be == 'swift':
        q = tx.count('?')
        if optional and q < 1:
            return 'optional field rendered without `?`'
        if optional and q > 1 and not dbl:
            return 'optional marker doubled (`??`): changes the underlying type and collides with Option<Option<T>>'
        if not optional and q:
            return 'required field rendered with `?`'
        return None
    if be == 'scala':
        o = 'Option[' in tx
        d = ' = None' in tx
        if optional and not (o and d):
            return f"expected `Option[..] = None`, found {'Option[' if o else 'plain type'} with default `{tx.split(' = ')[-1].strip() if ' = ' in tx else 'none'}`"
        if not optional and (o or ' = ' in tx):
            return 'required field rendered optional / defaulted'
        if tx.count('Option[') > 1 and not dbl:
            return 'Option doubled'
        return None
    if be == 'go':
        ptr = bool(re.search(r'\*+(⟨[^⟩]*:)*\**T', tx)) or '*T' in tx or '*⟨' in tx
        stars = tx.count('*')
        om = ',omitempty' in tx
        if optional and not (stars >= 1):
            return 'optional field rendered without pointer'
        if optional and stars > 1 and not dbl:
            return 'pointer doubled (`**`)'
        if not optional and stars:
            return 'required field rendered as pointer'
        if om != optional:
            return f"`,omitempty` is {'present' if om else 'absent'} but the field is {'optional' if optional else 'required'}"
        return None
    if be == 'python':
        o = tx.count('Optional[')
        d = 'default=None' in tx
        if optional and (o < 1 or not d):
            return f"expected `Optional[..]` with `default=None`, found {o} Optional and {'a' if d else 'no'} default"
        if optional and o > 1 and not dbl:
            return 'Optional doubled'
        if not optional and (o or d):
            return 'required field rendered Optional / defaulted'
        return None
    return None


def ts_variant(ctx, rep, T):
    f = ctx.fn('TypeScript::write_enum_variants', file='typescript.rs')
    n = 0
    for s in f['sites']:
        if not any(c.get('f') == 'format_type' for c in vt.calls_in(s['fmt'])):
            continue
        keys = [k for k in guards.vocabulary(T, [c[1] for c, _ in [(x, None) for x in []]])]
        conds = [x for x in vt.walk(s['fmt']) if x.get('k') == 'cond']
        vocab = guards.vocabulary(T, [c['c'] for c in conds])
        vk = [k for k in vocab if k.endswith('is_optional()')]
        if len(vk) != 1:
            continue
        n += 1
        for opt in (False, True):
            R = guards.Renderer(T, {vk[0]: opt}, type_hook=lambda v: ['T'])
            for tx in R.render(s['fmt']):
                q = bool(re.search(r'⟩\?: T', tx))
                rep.check(q == opt, 'O4', f'typescript:newtype-payload:opt={int(opt)}', tx.strip()[:80], f"TypeScript newtype-variant payload: `?` is {'present' if q else 'absent'} for {'Option' if opt else 'non-Option'} payload: `{tx.strip()[:100]}`", {'file': f['file'], 'line': s['line']})
    rep.floor('O4', 'TypeScript newtype payload templates', n, 1)
